package taref

import (
	"math"
	"math/big"
	"sort"
	"strings"
)

func arg(args []Value, i int) Value {
	if i < len(args) && args[i] != nil {
		return args[i]
	}
	return Undefined
}

func asCallback(v Value) *Callback {
	cb, ok := v.(*Callback)
	if !ok {
		throw("TypeError") // IsCallable(callbackfn) is false
	}
	return cb
}

// At: %TypedArray%.prototype.at (23.2.3.1)
func (w *World) At(o *TypedArray, args []Value) Value {
	w.validate(o)
	n := o.Length
	rel := w.ToIntegerOrInfinity(arg(args, 0))
	k := rel
	if rel < 0 {
		k = float64(n) + rel
	}
	if k < 0 || k >= float64(n) {
		return Undefined
	}
	return w.get(o, int(k))
}

// CopyWithin (23.2.3.6)
func (w *World) CopyWithin(o *TypedArray, args []Value) Value {
	w.validate(o)
	n := o.Length
	to := relIndex(w.ToIntegerOrInfinity(arg(args, 0)), n)
	from := relIndex(w.ToIntegerOrInfinity(arg(args, 1)), n)
	final := n
	if e := arg(args, 2); !IsUndef(e) {
		final = relIndex(w.ToIntegerOrInfinity(e), n)
	}
	count := final - from
	if n-to < count {
		count = n - to
	}
	if count > 0 {
		if o.Buf.Detached {
			throw("TypeError")
		}
		es := o.Type.Size()
		copyBytes(o.Buf, o.ByteOffset+to*es, o.Buf, o.ByteOffset+from*es, count*es, true)
	}
	return o
}

// iteration helpers over callbacks -------------------------------------------------------------

// Every / Some / ForEach / Find / FindIndex / FindLast / FindLastIndex (23.2.3.8 ...)
func (w *World) IterMethod(name string, o *TypedArray, args []Value) Value {
	w.validate(o)
	n := o.Length
	cb := asCallback(arg(args, 0))
	switch name {
	case "every":
		for k := 0; k < n; k++ {
			if !ToBoolean(w.call(cb, w.get(o, k), float64(k), o)) {
				return false
			}
		}
		return true
	case "some":
		for k := 0; k < n; k++ {
			if ToBoolean(w.call(cb, w.get(o, k), float64(k), o)) {
				return true
			}
		}
		return false
	case "forEach":
		for k := 0; k < n; k++ {
			w.call(cb, w.get(o, k), float64(k), o)
		}
		return Undefined
	case "find", "findIndex":
		for k := 0; k < n; k++ {
			kv := w.get(o, k)
			if ToBoolean(w.call(cb, kv, float64(k), o)) {
				if name == "find" {
					return kv
				}
				return float64(k)
			}
		}
	case "findLast", "findLastIndex":
		for k := n - 1; k >= 0; k-- {
			kv := w.get(o, k)
			if ToBoolean(w.call(cb, kv, float64(k), o)) {
				if name == "findLast" {
					return kv
				}
				return float64(k)
			}
		}
	default:
		panic("IterMethod " + name)
	}
	if strings.HasSuffix(name, "Index") {
		return float64(-1)
	}
	return Undefined
}

// Fill (23.2.3.9)
func (w *World) Fill(o *TypedArray, args []Value) Value {
	w.validate(o)
	n := o.Length
	var v Value
	if o.Type.IsBigInt() {
		v = w.ToBigInt(arg(args, 0))
	} else {
		v = w.ToNumber(arg(args, 0))
	}
	k := relIndex(w.ToIntegerOrInfinity(arg(args, 1)), n)
	final := n
	if e := arg(args, 2); !IsUndef(e) {
		final = relIndex(w.ToIntegerOrInfinity(e), n)
	}
	if o.Buf.Detached {
		throw("TypeError")
	}
	for ; k < final; k++ {
		w.set(o, k, v)
	}
	return o
}

// Filter (23.2.3.10)
func (w *World) Filter(o *TypedArray, args []Value) Value {
	w.validate(o)
	n := o.Length
	cb := asCallback(arg(args, 0))
	var kept []Value
	for k := 0; k < n; k++ {
		kv := w.get(o, k)
		if ToBoolean(w.call(cb, kv, float64(k), o)) {
			kept = append(kept, kv)
		}
	}
	a := w.speciesCreate(o, []Value{float64(len(kept))})
	for i, e := range kept {
		w.set(a, i, e)
	}
	return a
}

// Includes / IndexOf / LastIndexOf (23.2.3.14, .15, .18)
func (w *World) Includes(o *TypedArray, args []Value) Value {
	w.validate(o)
	n := o.Length
	if n == 0 {
		return false
	}
	f := w.ToIntegerOrInfinity(arg(args, 1))
	if math.IsInf(f, 1) {
		return false
	}
	k := 0
	if f >= 0 {
		k = int(math.Min(f, float64(n)))
	} else if !math.IsInf(f, -1) && float64(n)+f > 0 {
		k = int(float64(n) + f)
	}
	se := arg(args, 0)
	for ; k < n; k++ {
		if SameValueZero(se, w.get(o, k)) {
			return true
		}
	}
	return false
}

func (w *World) IndexOf(o *TypedArray, args []Value) Value {
	w.validate(o)
	n := o.Length
	if n == 0 {
		return float64(-1)
	}
	f := w.ToIntegerOrInfinity(arg(args, 1))
	if math.IsInf(f, 1) {
		return float64(-1)
	}
	k := 0
	if f >= 0 {
		k = int(math.Min(f, float64(n)))
	} else if !math.IsInf(f, -1) && float64(n)+f > 0 {
		k = int(float64(n) + f)
	}
	se := arg(args, 0)
	for ; k < n; k++ {
		if w.IsValidIntegerIndex(o, float64(k)) { // HasProperty
			if StrictEquals(se, w.get(o, k)) {
				return float64(k)
			}
		}
	}
	return float64(-1)
}

func (w *World) LastIndexOf(o *TypedArray, args []Value) Value {
	w.validate(o)
	n := o.Length
	if n == 0 {
		return float64(-1)
	}
	f := float64(n - 1)
	if len(args) > 1 {
		f = w.ToIntegerOrInfinity(arg(args, 1))
	}
	if math.IsInf(f, -1) {
		return float64(-1)
	}
	var k int
	if f >= 0 {
		k = int(math.Min(f, float64(n-1)))
	} else {
		if float64(n)+f < 0 {
			return float64(-1)
		}
		k = int(float64(n) + f)
	}
	se := arg(args, 0)
	for ; k >= 0; k-- {
		if w.IsValidIntegerIndex(o, float64(k)) {
			if StrictEquals(se, w.get(o, k)) {
				return float64(k)
			}
		}
	}
	return float64(-1)
}

// Join (23.2.3.16)
func (w *World) Join(o *TypedArray, args []Value) Value {
	w.validate(o)
	n := o.Length
	sep := ","
	if s := arg(args, 0); !IsUndef(s) {
		sep = w.ToString(s)
	}
	var b strings.Builder
	for k := 0; k < n; k++ {
		if k > 0 {
			b.WriteString(sep)
		}
		e := w.get(o, k)
		if !IsUndef(e) {
			b.WriteString(w.ToString(e))
		}
	}
	return b.String()
}

// Map (23.2.3.20)
func (w *World) Map(o *TypedArray, args []Value) Value {
	w.validate(o)
	n := o.Length
	cb := asCallback(arg(args, 0))
	a := w.speciesCreate(o, []Value{float64(n)})
	for k := 0; k < n; k++ {
		mv := w.call(cb, w.get(o, k), float64(k), o)
		w.set(a, k, mv)
	}
	return a
}

// Reduce / ReduceRight (23.2.3.21, .22)
func (w *World) Reduce(o *TypedArray, args []Value, right bool) Value {
	w.validate(o)
	n := o.Length
	cb := asCallback(arg(args, 0))
	if n == 0 && len(args) < 2 {
		throw("TypeError")
	}
	var acc Value
	if !right {
		k := 0
		if len(args) >= 2 {
			acc = arg(args, 1)
		} else {
			acc = w.get(o, 0)
			k = 1
		}
		for ; k < n; k++ {
			acc = w.call(cb, acc, w.get(o, k), float64(k), o)
		}
		return acc
	}
	k := n - 1
	if len(args) >= 2 {
		acc = arg(args, 1)
	} else {
		acc = w.get(o, k)
		k--
	}
	for ; k >= 0; k-- {
		acc = w.call(cb, acc, w.get(o, k), float64(k), o)
	}
	return acc
}

// Reverse (23.2.3.23)
func (w *World) Reverse(o *TypedArray) Value {
	w.validate(o)
	n := o.Length
	for lower := 0; lower != n/2; lower++ {
		upper := n - lower - 1
		lv := w.get(o, lower)
		uv := w.get(o, upper)
		w.set(o, lower, uv)
		w.set(o, upper, lv)
	}
	return o
}

// Set (23.2.3.24)
func (w *World) Set(o *TypedArray, args []Value) Value {
	off := w.ToIntegerOrInfinity(arg(args, 1))
	if off < 0 {
		throw("RangeError")
	}
	switch src := arg(args, 0).(type) {
	case *TypedArray:
		w.setFromTypedArray(o, off, src)
	case *Array:
		w.setFromArrayLike(o, off, src)
	default:
		panic("taref: set source outside the model domain")
	}
	return Undefined
}

func (w *World) setFromTypedArray(t *TypedArray, off float64, src *TypedArray) {
	if t.Buf.Detached {
		throw("TypeError")
	}
	tl := t.Length
	if src.Buf.Detached {
		throw("TypeError")
	}
	sl := src.Length
	if t.Type.IsBigInt() != src.Type.IsBigInt() {
		throw("TypeError")
	}
	if math.IsInf(off, 1) {
		throw("RangeError")
	}
	if float64(sl)+off > float64(tl) {
		throw("RangeError")
	}
	tes, ses := t.Type.Size(), src.Type.Size()
	tbi := int(off)*tes + t.ByteOffset
	srcBuf := src.Buf
	sbi := src.ByteOffset
	if src.Buf == t.Buf {
		// CloneArrayBuffer(srcBuffer, srcByteOffset, srcByteLength)
		c := NewBuffer(sl * ses)
		copyBytes(c, 0, src.Buf, src.ByteOffset, sl*ses, false)
		srcBuf = c
		sbi = 0
	}
	if src.Type == t.Type {
		copyBytes(t.Buf, tbi, srcBuf, sbi, sl*ses, false)
		return
	}
	for i := 0; i < sl; i++ {
		v := w.GetValueFromBuffer(srcBuf, sbi+i*ses, src.Type, w.LittleEndian)
		w.SetValueInBuffer(t.Buf, tbi+i*tes, t.Type, v, w.LittleEndian)
	}
}

func (w *World) setFromArrayLike(t *TypedArray, off float64, src *Array) {
	if t.Buf.Detached {
		throw("TypeError")
	}
	tl := t.Length
	prev := w.CurSrc
	w.CurSrc = src
	defer func() { w.CurSrc = prev }()
	var sl int
	if src.IsArray {
		sl = len(src.Elems)
	} else {
		sl = w.ToLength(src.LengthVal)
	}
	if math.IsInf(off, 1) {
		throw("RangeError")
	}
	if float64(sl)+off > float64(tl) {
		throw("RangeError")
	}
	for k := 0; k < sl; k++ {
		v := arrGet(src, k)
		w.taSetElement(t, off+float64(k), v)
	}
}

// Slice (23.2.3.25)
func (w *World) Slice(o *TypedArray, args []Value) Value {
	w.validate(o)
	n := o.Length
	k := relIndex(w.ToIntegerOrInfinity(arg(args, 0)), n)
	final := n
	if e := arg(args, 1); !IsUndef(e) {
		final = relIndex(w.ToIntegerOrInfinity(e), n)
	}
	count := final - k
	if count < 0 {
		count = 0
	}
	a := w.speciesCreate(o, []Value{float64(count)})
	if count > 0 {
		if o.Buf.Detached {
			throw("TypeError")
		}
		if a.Type != o.Type {
			for i := 0; k < final; k, i = k+1, i+1 {
				w.set(a, i, w.get(o, k))
			}
		} else {
			es := o.Type.Size()
			// byte-by-byte ascending copy (observable when the species result overlaps the source)
			copyBytes(a.Buf, a.ByteOffset, o.Buf, o.ByteOffset+k*es, count*es, false)
		}
	}
	return a
}

// ---- sorting ----

func sortClass(v Value) int {
	switch x := v.(type) {
	case float64:
		switch {
		case x != x:
			return 3
		case x < 0:
			return 0
		case x > 0:
			return 2
		}
		return 1
	case *big.Int:
		return x.Sign() + 1
	}
	return 4
}

// defaultCompare is the TypedArray SortCompare without comparefn (23.2.4.7).
func defaultCompare(x, y Value) int {
	if bx, ok := x.(*big.Int); ok {
		return bx.Cmp(y.(*big.Int))
	}
	a, b := x.(float64), y.(float64)
	switch {
	case a != a && b != b:
		return 0
	case a != a:
		return 1
	case b != b:
		return -1
	case a < b:
		return -1
	case a > b:
		return 1
	}
	if a == 0 && b == 0 {
		na, nb := math.Signbit(a), math.Signbit(b)
		if na && !nb {
			return -1
		}
		if !na && nb {
			return 1
		}
	}
	return 0
}

func numCompare(x, y Value) int {
	if bx, ok := x.(*big.Int); ok {
		return bx.Cmp(y.(*big.Int))
	}
	a, b := x.(float64), y.(float64)
	switch {
	case a < b:
		return -1
	case a > b:
		return 1
	}
	return 0
}

func (w *World) compareWith(c *Comparator, x, y Value) int {
	first := c.calls == 0
	c.calls++
	if first {
		w.log("k" + itoa(c.ID))
		w.runEffects(c.Effects)
	}
	switch c.Kind {
	case "asc":
		return numCompare(x, y)
	case "desc":
		return numCompare(y, x)
	case "sign":
		return sortClass(x) - sortClass(y)
	case "const0":
		return 0
	}
	panic("bad comparator " + c.Kind)
}

// sortList sorts values stably (the spec requires a stable sort; with a consistent comparator the result is unique).
func (w *World) sortList(items []Value, cmp Value) []Value {
	out := append([]Value(nil), items...)
	if IsUndef(cmp) {
		sort.SliceStable(out, func(i, j int) bool { return defaultCompare(out[i], out[j]) < 0 })
		return out
	}
	c := cmp.(*Comparator)
	// insertion sort: stable, and any throw from the comparator propagates from the first call
	for i := 1; i < len(out); i++ {
		for j := i; j > 0 && w.compareWith(c, out[j-1], out[j]) > 0; j-- {
			out[j-1], out[j] = out[j], out[j-1]
		}
	}
	return out
}

func checkComparator(cmp Value) {
	if IsUndef(cmp) {
		return
	}
	if _, ok := cmp.(*Comparator); !ok {
		throw("TypeError")
	}
}

// Sort (23.2.3.29)
func (w *World) Sort(o *TypedArray, args []Value) Value {
	cmp := arg(args, 0)
	checkComparator(cmp)
	w.validate(o)
	n := o.Length
	items := make([]Value, n)
	for k := 0; k < n; k++ {
		items[k] = w.get(o, k)
	}
	sorted := w.sortList(items, cmp)
	for j := 0; j < n; j++ {
		w.set(o, j, sorted[j])
	}
	return o
}

// ToSorted (23.2.3.33)
func (w *World) ToSorted(o *TypedArray, args []Value) Value {
	cmp := arg(args, 0)
	checkComparator(cmp)
	w.validate(o)
	n := o.Length
	a := allocate(o.Type, n)
	items := make([]Value, n)
	for k := 0; k < n; k++ {
		items[k] = w.get(o, k)
	}
	sorted := w.sortList(items, cmp)
	for j := 0; j < n; j++ {
		w.set(a, j, sorted[j])
	}
	return a
}

// ToReversed (23.2.3.32)
func (w *World) ToReversed(o *TypedArray) Value {
	w.validate(o)
	n := o.Length
	a := allocate(o.Type, n)
	for k := 0; k < n; k++ {
		w.set(a, k, w.get(o, n-k-1))
	}
	return a
}

// With (23.2.3.36)
func (w *World) With(o *TypedArray, args []Value) Value {
	w.validate(o)
	n := o.Length
	rel := w.ToIntegerOrInfinity(arg(args, 0))
	actual := rel
	if rel < 0 {
		actual = float64(n) + rel
	}
	var nv Value
	if o.Type.IsBigInt() {
		nv = w.ToBigInt(arg(args, 1))
	} else {
		nv = w.ToNumber(arg(args, 1))
	}
	if !w.IsValidIntegerIndex(o, actual) {
		throw("RangeError")
	}
	a := allocate(o.Type, n)
	for k := 0; k < n; k++ {
		if float64(k) == actual {
			w.set(a, k, nv)
		} else {
			w.set(a, k, w.get(o, k))
		}
	}
	return a
}

// Subarray (23.2.3.30). ArgsDetached reports that the receiver was detached on entry (the arguments handed to the
// species constructor differ between editions in that case and are not compared).
func (w *World) Subarray(o *TypedArray, args []Value) Value {
	srcLen := o.Length
	if o.Buf.Detached {
		srcLen = 0
	}
	begin := relIndex(w.ToIntegerOrInfinity(arg(args, 0)), srcLen)
	end := srcLen
	if e := arg(args, 1); !IsUndef(e) {
		end = relIndex(w.ToIntegerOrInfinity(e), srcLen)
	}
	newLen := end - begin
	if newLen < 0 {
		newLen = 0
	}
	bo := o.ByteOffset + begin*o.Type.Size()
	return w.speciesCreate(o, []Value{o.Buf, float64(bo), float64(newLen)})
}

// ToLocaleStringHooked: %TypedArray%.prototype.toLocaleString (23.2.3.31, the algorithm of Array.prototype.toLocaleString) while the
// element type's toLocaleString method is replaced by a strict function that logs ("l<id>", this), runs effs on call number `at`
// (0-based) and returns "e<call number>". Elements read after a detach are undefined and contribute the empty string.
func (w *World) ToLocaleStringHooked(o *TypedArray, id, at int, effs []Effect) Value {
	w.validate(o)
	n := o.Length
	var b strings.Builder
	calls := 0
	for k := 0; k < n; k++ {
		if k > 0 {
			b.WriteByte(',')
		}
		el := w.get(o, k)
		if IsUndef(el) {
			continue
		}
		i := calls
		calls++
		w.log("l"+itoa(id), el)
		if i == at {
			w.runEffects(effs)
		}
		b.WriteString("e" + itoa(i))
	}
	return b.String()
}

// Iterate models CreateArrayIterator over a typed array: kind "keys" | "values" | "entries"; effects run before
// step number `at`; at most limit steps. Returns the list of produced values followed by "done" when exhausted.
// again: once the iterator is exhausted run effs once more and call next() again (an exhausted iterator stays done and
// never throws, even if the buffer is detached meanwhile).
func (w *World) Iterate(o *TypedArray, kind string, at int, effs []Effect, limit int, again bool) Value {
	w.validate(o)
	out := &Array{IsArray: true}
	for i := 0; i < limit; i++ {
		if i == at {
			w.runEffects(effs)
		}
		if o.Buf.Detached {
			throw("TypeError")
		}
		if i >= o.Length {
			out.Elems = append(out.Elems, "done")
			if again {
				w.runEffects(effs)
				out.Elems = append(out.Elems, "done")
			}
			break
		}
		switch kind {
		case "keys":
			out.Elems = append(out.Elems, float64(i))
		case "values":
			out.Elems = append(out.Elems, w.get(o, i))
		default:
			out.Elems = append(out.Elems, &Array{IsArray: true, Elems: []Value{float64(i), w.get(o, i)}})
		}
	}
	return out
}

// Of: %TypedArray%.of with the intrinsic constructor of type t (23.2.2.2).
func (w *World) Of(t ElemType, items []Value) Value {
	a := allocate(t, len(items))
	for k, v := range items {
		w.set(a, k, v)
	}
	return a
}

// createFromCustomCtor is TypedArrayCreateFromCtor with a user constructor that logs ("o<id>", len) and returns the view `ret`.
func (w *World) createFromCustomCtor(id int, ret *TypedArray, n int) *TypedArray {
	w.log("o"+itoa(id), float64(n))
	w.validate(ret)
	if ret.Length < n {
		throw("TypeError")
	}
	return ret
}

// OfCtor: %TypedArray%.of.call(C, ...items) (23.2.2.2) where C returns the existing view ret.
func (w *World) OfCtor(id int, ret *TypedArray, items []Value) Value {
	a := w.createFromCustomCtor(id, ret, len(items))
	for k, v := range items {
		w.set(a, k, v)
	}
	return a
}

// FromCtor: %TypedArray%.from.call(C, source [, mapfn]) (23.2.2.1) with an Array (iterated) or array-like source.
func (w *World) FromCtor(id int, ret *TypedArray, src *Array, mapfn *Callback) Value {
	prev := w.CurSrc
	w.CurSrc = src
	defer func() { w.CurSrc = prev }()
	var vals []Value
	var a *TypedArray
	n := 0
	if src.IsArray {
		for k := range src.Elems {
			vals = append(vals, arrGet(src, k)) // IteratorToList: no user code runs for an ordinary Array
		}
		n = len(vals)
		a = w.createFromCustomCtor(id, ret, n)
	} else {
		n = w.ToLength(src.LengthVal)
		a = w.createFromCustomCtor(id, ret, n)
	}
	for k := 0; k < n; k++ {
		var kv Value
		if src.IsArray {
			kv = vals[k]
		} else {
			kv = arrGet(src, k)
		}
		if mapfn != nil {
			kv = w.call(mapfn, kv, float64(k))
		}
		w.set(a, k, kv)
	}
	return a
}

// ---- integer-indexed exotic object internal methods (10.4.5) ----

// KeyClass classifies a property key string: "index" (canonical numeric string; Num holds the value) or "plain".
type Key struct {
	Str     string
	Numeric bool
	Num     float64
}

func (w *World) ExoticGet(o *TypedArray, k Key) Value {
	if k.Numeric {
		return w.taGetElement(o, k.Num)
	}
	if v, ok := o.Props[k.Str]; ok {
		return v
	}
	return Undefined
}

// ExoticSet is `o[k] = v` in strict code: result is v (assignment expression value) unless a conversion throws.
func (w *World) ExoticSet(o *TypedArray, k Key, v Value) Value {
	if k.Numeric {
		w.taSetElement(o, k.Num, v)
		return v
	}
	if o.Props == nil {
		o.Props = map[string]Value{}
	}
	o.Props[k.Str] = v
	return v
}

func (w *World) ExoticHas(o *TypedArray, k Key) Value {
	if k.Numeric {
		return w.IsValidIntegerIndex(o, k.Num)
	}
	_, ok := o.Props[k.Str]
	return ok
}

// ExoticDelete is Reflect.deleteProperty(o, k).
func (w *World) ExoticDelete(o *TypedArray, k Key) Value {
	if k.Numeric {
		return !w.IsValidIntegerIndex(o, k.Num)
	}
	delete(o.Props, k.Str)
	return true
}

// ExoticDefine is Reflect.defineProperty(o, k, {value: v [, writable/enumerable/configurable flags]}).
// flags: 'w','e','c' present => attribute true; 'W','E','C' => attribute false; 'a' => accessor descriptor.
func (w *World) ExoticDefine(o *TypedArray, k Key, v Value, hasValue bool, flags string) Value {
	if k.Numeric {
		if !w.IsValidIntegerIndex(o, k.Num) {
			return false
		}
		if strings.ContainsAny(flags, "CEWa") {
			return false
		}
		if hasValue {
			w.taSetElement(o, k.Num, v)
		}
		return true
	}
	panic("taref: define of plain keys is outside the model domain")
}

// ExoticGetOwn is Object.getOwnPropertyDescriptor(o,k) rendered as [value] for a present index, undefined otherwise.
func (w *World) ExoticGetOwn(o *TypedArray, k Key) Value {
	if k.Numeric {
		v := w.taGetElement(o, k.Num)
		if IsUndef(v) {
			return Undefined
		}
		return &Array{IsArray: true, Elems: []Value{v, true, true, true}}
	}
	if v, ok := o.Props[k.Str]; ok {
		return &Array{IsArray: true, Elems: []Value{v, true, true, true}}
	}
	return Undefined
}

// OwnIndexKeys is the integer-index prefix of [[OwnPropertyKeys]] (as a count).
func (w *World) OwnIndexKeys(o *TypedArray) Value {
	return float64(taLength(o))
}

// Accessors
func (w *World) TALength(o *TypedArray) Value     { return float64(taLength(o)) }
func (w *World) TAByteLength(o *TypedArray) Value { return float64(taLength(o) * o.Type.Size()) }
func (w *World) TAByteOffset(o *TypedArray) Value {
	if o.Buf.Detached {
		return float64(0)
	}
	return float64(o.ByteOffset)
}
