package taref

import (
	"math"
	"math/big"
	"math/rand"
	"strconv"
	"testing"
)

func TestF32(t *testing.T) {
	r := rand.New(rand.NewSource(1))
	check := func(f float64) {
		want := math.Float32bits(float32(f))
		got := F64ToF32Bits(f)
		if f != f {
			if got&0x7f800000 != 0x7f800000 || got&0x7fffff == 0 {
				t.Fatalf("NaN encoding %x", got)
			}
			return
		}
		if got != want {
			t.Fatalf("F64ToF32Bits(%v / %x) = %x want %x", f, math.Float64bits(f), got, want)
		}
		if back := F32BitsToF64(got); back != float64(math.Float32frombits(got)) {
			t.Fatalf("F32BitsToF64(%x)=%v", got, back)
		}
	}
	for i := 0; i < 2000000; i++ {
		check(math.Float64frombits(r.Uint64()))
		// values around float32 range and ties
		b := r.Uint32()
		f := float64(math.Float32frombits(b))
		check(f)
		u := math.Float64bits(f)
		check(math.Float64frombits(u + 1<<28))
		check(math.Float64frombits(u + 1<<28 + 1))
		check(math.Float64frombits(u + 1<<28 - 1))
		check(math.Ldexp(1+r.Float64(), -150+r.Intn(6)-3))
	}
	for _, f := range []float64{0, math.Copysign(0, -1), math.Inf(1), math.Inf(-1), math.NaN(), math.Ldexp(1, -150), math.Ldexp(1, -149), math.Ldexp(3, -150), math.MaxFloat32, 3.4028235677973366e38, 1e40, 16777217, 16777219} {
		check(f)
	}
}

func TestInts(t *testing.T) {
	cases := []struct {
		f   float64
		i32 int32
		u8  uint8
	}{{1e21, -559939584, 0}, {-1e21, 559939584, 0}, {4294967296 + 5, 5, 5}, {-1, -1, 255}, {2147483648, -2147483648, 0}, {-0.9, 0, 0}, {255.9, 255, 255}, {256, 256, 0}, {math.NaN(), 0, 0}, {math.Inf(1), 0, 0}, {math.Ldexp(1, 64) + 4096, 4096, 0}}
	for _, c := range cases {
		if g := ToInt32(c.f); g != c.i32 {
			t.Errorf("ToInt32(%v)=%d want %d", c.f, g, c.i32)
		}
		if g := ToUint8(c.f); g != c.u8 {
			t.Errorf("ToUint8(%v)=%d want %d", c.f, g, c.u8)
		}
	}
	cl := map[float64]uint8{0.5: 0, 1.5: 2, 2.5: 2, 254.5: 254, 255.5: 255, -0.5: 0, 0.49999999999999994: 0, 1.5000000000000002: 2, 300: 255, 254.50000000000003: 255, 253.5: 254}
	for f, w := range cl {
		if g := ToUint8Clamp(f); g != w {
			t.Errorf("clamp(%v)=%d want %d", f, g, w)
		}
	}
	x, _ := new(big.Int).SetString("-9223372036854775809", 10)
	if BigIntMod64(x) != 0x7fffffffffffffff {
		t.Errorf("BigIntMod64")
	}
}

func TestNumStr(t *testing.T) {
	cases := map[float64]string{1: "1", 1.5: "1.5", 1e21: "1e+21", 1e-7: "1e-7", 123456789012345680000: "123456789012345680000", 0.000001: "0.000001", 1.2e-7: "1.2e-7", -5e-324: "-5e-324", 4294967295: "4294967295", 3.4028234663852886e38: "3.4028234663852886e+38", 0.1: "0.1", 100: "100", 1e20: "100000000000000000000", 1.5e20: "150000000000000000000", 12.25: "12.25"}
	for f, w := range cases {
		if g := NumberToString(f); g != w {
			t.Errorf("NumberToString(%v)=%q want %q", strconv.FormatFloat(f, 'g', -1, 64), g, w)
		}
	}
	if StringToNumber(" 12 ") != 12 || StringToNumber("0x10") != 16 || StringToNumber("") != 0 || StringToNumber("1e3") != 1000 || !math.IsNaN(StringToNumber("1e")) || !math.IsNaN(StringToNumber("abc")) || StringToNumber("-.5") != -0.5 || !math.IsNaN(StringToNumber("-0x10")) {
		t.Errorf("StringToNumber")
	}
}
