#!/bin/bash
# usage: tools-applyinbox.sh <inbox md file> "<fix subject>"
# extracts the ```diff block(s) of the inbox file, applies to /repo, runs suite (hooks off), commits as fix:
set -e
f="$(readlink -f "$1")"; msg="$2"
python3 - "$f" > /tmp/inbox.patch <<'P'
import sys,re
s=open(sys.argv[1]).read()
for m in re.finditer(r"```diff\n(.*?)```", s, re.S):
    sys.stdout.write(m.group(1))
P
cd /repo
git apply --check /tmp/inbox.patch 2>/dev/null || { echo "plain apply failed, trying 3way/fuzzy"; patch -p1 --batch --forward --dry-run < /tmp/inbox.patch || exit 1; patch -p1 --batch --forward < /tmp/inbox.patch; APPLIED=1; }
[ -z "${APPLIED:-}" ] && git apply /tmp/inbox.patch
gofmt -l . | grep . && echo "(gofmt issues above)"
/verif/tools-fixcommit.sh "$msg" | tail -2
mkdir -p /verif/inbox/applied && mv "$f" /verif/inbox/applied/
rm -f /tmp/inbox.patch
