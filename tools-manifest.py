#!/usr/bin/env python3
"""Regenerates MANIFEST.json from the table below (single source of truth for what is claimed)."""
import json, subprocess, os
CHECKS = {
 # id: (level category, technique, text, note, design_ref)
 "C01": ("exploration", "runtime monitoring: grammar/mutation fuzzing under panic-classifier, error-kind whitelist, diagnostic-text and idle-VM-state monitors with child-process crash attribution",
         "Every generated/mutated/raw source text is pushed through Parse, Compile(sloppy/strict), RunProgram (twice on one Runtime), function-body, direct/indirect eval and Function(); monitors judge each API return (no foreign Go panic, documented error kind, no internal diagnostic text, operand stack and auxiliary stacks idle). Held means: on the inputs executed, nothing escaped.",
         "Sampled input space (whole-grammar generator, token mutations, raw bytes; nesting <= 200, <= 64 KiB). Fuel (150k VM instructions) ends runs; OOM-by-construction and native time-outs are inconclusive. Trusted: the Go runtime's own checks, the recover()-based classifier, hook a (step counter) and VerifState accessor.",
         "DESIGN.md section 4 C01"),
}
NOT_YET = {}
def main():
    props=[json.loads(l)["id"] for l in open("/verif/properties.jsonl")]
    commits=subprocess.run(["git","-C","/repo","log","--format=%H %s"],capture_output=True,text=True).stdout.splitlines()
    hook_commits=[c.split()[0] for c in commits if c.split(" ",1)[1].startswith("verif hooks")]
    checks=[]
    for pid in props:
        if pid in CHECKS:
            cat,tech,text,note,ref=CHECKS[pid]
            checks.append({
              "property_id":pid,
              "quick_cmd":f"./run.sh {pid} quick",
              "thorough_cmd":f"./run.sh {pid} thorough",
              "evidence_file":f"/verif/evidence/{pid}.json",
              "replay_cmd_template":"./run.sh replay {path}",
              "engine":"vcheck",
              "level_claimed":{"category":cat,"text":text,"design_ref":ref},
              "level_note":note,
              "technique":tech})
    na=[{"property_id":p,"reason":NOT_YET.get(p,"check not built yet in this session (runtime-monitoring design exists in DESIGN.md section 4; to be registered once it is silent on the unchanged tree and has fired on trial mutations)")} for p in props if p not in CHECKS]
    m={"version":1,
       "setup_cmd":"./run.sh setup",
       "hooks":{"guard":"verif (Go build tag)","enable":"go build -tags verif (harness module replaces github.com/dop251/goja => /repo)",
                "baseline_off_cmd":"cd /repo && GOFLAGS=-mod=mod GOPROXY=off go test -vet=off -count=1 ./...",
                "source_commits":hook_commits,"add_only":True},
       "engines":[{"name":"vcheck","path":"/verif/harness","serves_properties":sorted(CHECKS.keys()),
                   "kind_free_text":"Go harness (one binary per property) driving the real goja engine built with -tags verif; parent/worker process isolation; monitors over API-boundary observations and hooked state; race detector / ASan builds where registered"}],
       "checks":checks,
       "notes":"All checks are run through /verif/run.sh which rebuilds from /repo's working tree (Go build cache) with the verif tag. known-findings.json lists pinned genuine defects (none suppressed unless listed) and the fix: commits made in /repo.",
       "not_applicable":na}
    json.dump(m,open("/verif/MANIFEST.json","w"),indent=1)
    print("checks:",[c["property_id"] for c in checks],"not claimed:",len(na))
main()
